"""C17: keys and identities have one canonical, lossless encoding (spec/Keys.tla, KeysTrace.tla).

Weaker form of the technique (DESIGN section 9): Keys.tla is an exhaustive structured CASE GENERATOR
(DER structure classes x OID arc classes x key body lengths; peer-id text classes) plus the law
oracle.  TLC checks the laws on the modelled codec (the peer-id text codec is modelled exactly, on
the real widths), prints every case; harness/cmd/codecreplay -mode keys concretises it and runs
x509.MarshalPublicKey / ParsePublicKey / EqualPublicKeys, both DefaultFingerprinters and
PeerID.MarshalText / UnmarshalText / Compare; -mode harvest adds the peer ids computed at every
site of running p2pkeswarm / quicswarm instances; TLC evaluates the laws on the observations.
"""
import json
import os
import re
import time

from . import core, tlcretry

PROPERTIES = ["C17"]

MANIFEST = {
    "C17": dict(level="exploration",
                technique="TLA+ spec (Keys.tla) as exhaustive structured case generator + law oracle (peer-id text codec modelled exactly); cases run on the real x509 / fingerprinter / PeerID functions and on running swarms; observations evaluated by TLC (KeysTrace.tla)",
                text="TLC enumerates keys (OID arc boundary classes, OIDs long enough to cross the 127/255-byte length forms, x body lengths {0,1,31,32,33,64,125..129,254..257,1312,65534..65536}), key pairs, non-canonical DER forms, parse-first wire sets (per key: parameters absent / NULL / OID / junk, unused bits, long-form and indefinite lengths, trailing and truncated data, another body, another OID; standard RSA / ECDSA / Ed25519 SPKIs from crypto/x509 with their parameters kept, stripped, replaced), peer-id text classes (wrong length, foreign characters, CR/LF/space, '=' padding, non-zero trailing bits) and id pairs, checks RoundTrip / CanonicalDER (definite minimal lengths; on the code: byte equality with encoding/asn1, a hand-written encoder and crypto/x509 reference encodings) / EqualIffEncodingEqual / WireCanonical (over accepted wire forms: marshal idempotent, EqualPublicKeys => same encoding and same id under both fingerprinters, same encoding => equal, Equal is an equivalence) / NonCanonical / RejectInvalid / OrderPreserving on the modelled codecs, and evaluates the same laws on what the real functions returned for seeded instances of every case; FingerprintIsFunctionOfKey is checked per swarm kind over direct calls and over ids observed at LocalAddrs / Src / Dst / LookupPublicKey / whitelist sites of running swarms.",
                note="Exploration: exhaustive over the class space, sampled (seeded) at byte level. The DER side is modelled at structure level. Integer tuples that are not object identifiers (fewer than two arcs, first arc > 2, negative arcs) are outside the quantifier. p2pkeswarm (SHAKE-256) and quicswarm (SHA3-256) fingerprints differ by construction: reported as an observation, not a violation.",
                ref="5 (C17), 3.11, 9"),
}

TIERS = {
    "quick": dict(cfg="Keys.cfg", variants=4, selftest_model=False),
    "thorough": dict(cfg="Keys_rich.cfg", variants=24, selftest_model=True),
}

KEYNAMES = {"RoundTripBigArc": "C17:RoundTrip:oid-arc>=2^31"}


def generate(tier, stats):
    T = TIERS[tier]
    res = tlcretry.tlc("Keys", T["cfg"], workers=4, timeout=900, label="keys-gen", short=(tier == "quick"))
    core.tlc_ok_or_inconclusive(res, "Keys.tla (laws + case generation)")
    cases = [dict(id=i + 1, c=v[1], m=v[2]) for i, v in enumerate(res.printed("KCASE"))]
    if len(cases) != res.distinct or not cases:
        raise core.Inconclusive("Keys generator printed %d cases for %d states" % (len(cases), res.distinct))
    stats["model"] = dict(states=res.distinct, transitions=res.generated, wall=round(res.wall, 1), cfg=T["cfg"])
    if T["selftest_model"]:
        r2 = tlcretry.tlc("Keys", "Keys_orig.cfg", workers=2, timeout=300, label="keys-orig", short=True)
        if "RejectInvalidLaw" not in r2.violated:
            raise core.Inconclusive("self-test: Keys_orig.cfg (pinned UnmarshalText) does not violate RejectInvalidLaw")
        r4 = tlcretry.tlc("Keys", "Keys_params.cfg", workers=2, timeout=300, label="keys-params", short=True)
        if "WireCanonicalLaw" not in r4.violated:
            raise core.Inconclusive("self-test: Keys_params.cfg (parsed parameters written back by Marshal) does not violate WireCanonicalLaw")
        r3 = tlcretry.tlc("Keys", "Keys_fastpath.cfg", workers=2, timeout=300, label="keys-fastpath", short=True)
        if not ({"RoundTripLaw", "CanonicalDERLaw"} & set(r3.violated)):
            raise core.Inconclusive("self-test: Keys_fastpath.cfg (outer length assuming a 2-byte BIT STRING header) violates neither RoundTripLaw nor CanonicalDERLaw")
        stats["model_selftest"] = ("pinned UnmarshalText (F17) violates RejectInvalidLaw and a length fast path that assumes a 2-byte "
                                   "BIT STRING header violates RoundTripLaw/CanonicalDERLaw in the model, as expected")
    return cases


def body_len(e):
    m = re.search(r"/len(\d+)", e.get("class", ""))
    return int(m.group(1)) if m else None


def length_threshold(op, events, viol_lines):
    """If the key cases failing `op` are exactly those whose body is at least some length m (every OID), the
    culprit is the length form, not the OID: name it body>=m."""
    bad = {ln for ln, ops in viol_lines if op in ops and events[ln - 1]["ev"] == "key"}
    if not bad:
        return None
    m = min(body_len(events[ln - 1]) for ln in bad)
    for i, e in enumerate(events):
        if e["ev"] != "key" or not (e.get("valid") and e.get("fits")):
            continue
        if (body_len(e) >= m) != ((i + 1) in bad):
            return None
    return m


def wire_culprit(op, e):
    """The first pair (or single) of accepted wire forms that falsifies the law."""
    A = [i for i, a in enumerate(e["acc"]) if a]
    f = e["forms"]
    if op == "MarshalIdempotent":
        return next((f[i] for i in A if not e["idem"][i]), "?")
    for i in A:
        for j in A:
            eq = e["eq"][i][j]
            bad = ((op == "EqualImpliesSameEncoding" and eq and e["m"][i] != e["m"][j]) or
                   (op == "EqualImpliesSameIdentity" and eq and (e["fpk"][i] != e["fpk"][j] or e["fpq"][i] != e["fpq"][j])) or
                   (op == "SameEncodingImpliesEqual" and not eq and e["m"][i] == e["m"][j]) or
                   (op == "EqualIsEquivalence" and (eq != e["eq"][j][i] or (i == j and not eq))))
            if bad:
                return "%s~%s" % (f[i], f[j])
    return "?"


def violation_key(op, e, thresholds=None):
    if op in KEYNAMES:
        return KEYNAMES[op]
    cls = e.get("class", "")
    if e["ev"] == "key":
        if thresholds and thresholds.get(op) is not None:
            return "C17:%s:body>=%d" % (op, thresholds[op])
        return "C17:%s:key/%s" % (op, cls.split("/")[0])
    if e["ev"] == "pair":
        return "C17:%s:pair/%s" % (op, "~".join(x.split("/")[0] for x in cls.split("~")))
    if e["ev"] == "der":
        return "C17:%s:der/%s" % (op, cls.split("/")[0])
    if e["ev"] == "wires":
        return "C17:%s:wire/%s" % (op, wire_culprit(op, e))
    if e["ev"] == "fp":
        return "C17:%s:%s" % (op, e["kind"])
    if e["ev"] == "idtext":
        parts = cls.split("/")
        return "C17:%s:text/%s" % (op, parts[1] + (("-" + parts[2].split("@")[0]) if parts[1] == "bad-char" else ""))
    return "C17:%s:%s" % (op, e["ev"])


def run_pipeline(tier, cases=None, harvest=True, seed=None, variants=None):
    t0 = time.time()
    T = TIERS[tier]
    seed = core.seed() if seed is None else seed
    stats = dict(drift=0, drift_samples=[])
    d = core.scratch("keys")
    binp = os.environ.get("VERIF_PREBUILT_CODECREPLAY") or core.go_build("codecreplay")
    if cases is None:
        cases = generate(tier, stats)
    variants = variants or T["variants"]
    by_id = {c["id"]: c for c in cases}
    events = []
    if cases:
        cp = os.path.join(d, "cases.ndjson")
        with open(cp, "w") as f:
            for c in cases:
                f.write(json.dumps(c) + "\n")
        tr = os.path.join(d, "keys.ndjson")
        o = core.run([binp, "-mode", "keys", "-in", cp, "-out", tr, "-seed", str(seed), "-variants", str(variants)], timeout=1500)
        core.log("codecreplay keys:", o.strip().splitlines()[-1])
        events += [json.loads(l) for l in open(tr)]
    if harvest:
        o = core.run([binp, "-mode", "harvest", "-out", os.path.join(d, "hv.ndjson"), "-fpout", os.path.join(d, "fp.ndjson")], timeout=600)
        core.log("codecreplay harvest:", o.strip().splitlines()[-1])
        hv = [json.loads(l) for l in open(os.path.join(d, "fp.ndjson"))]
        if len(hv) < 20:
            raise core.Inconclusive("harvest produced only %d fingerprint observations: %s" % (len(hv), o.strip()[-300:]))
        stats["harvested_fp"] = len(hv)
        events += hv
    # fingerprint observations: grouped by key then swarm kind, so that the law is a comparison of adjacent
    # lines (the comparison itself is TLC's); ids as hex strings
    fp = [e for e in events if e["ev"] == "fp"]
    rest = [e for e in events if e["ev"] != "fp"]
    for e in fp:
        e["id"] = "".join("%02x" % b for b in e["id"])
    fp.sort(key=lambda e: (e["key"], e["kind"], e["site"]))
    events = rest + fp
    # binding demonstration: corrupted copies of real events must be rejected
    selftest = {}

    def corrupt(want, pred, mut):
        src = next((e for e in events if pred(e)), None)
        if src is not None:
            events.append(dict(src, **mut))
            selftest[len(events)] = want
    if fp:   # must directly follow the last fingerprint observation
        events.append(dict(fp[-1], id="00" * 32, site="selftest"))
        selftest[len(events)] = "FingerprintIsFunctionOfKey"
    corrupt("RoundTrip", lambda e: e["ev"] == "key" and e["valid"] and e["fits"] and e["eqkey"], dict(eqkey=False))
    wsrc = next((e for e in events if e["ev"] == "wires" and sum(e["acc"]) >= 2 and
                 any(e["eq"][i][j] for i in range(len(e["acc"])) for j in range(len(e["acc"])) if i != j)), None)
    if wsrc is not None:
        i, j = next((i, j) for i in range(len(wsrc["acc"])) for j in range(len(wsrc["acc"])) if i != j and wsrc["eq"][i][j])
        bad = json.loads(json.dumps(wsrc))
        bad["m"][j] = "00"
        events.append(bad)
        selftest[len(events)] = "EqualImpliesSameEncoding"
    corrupt("CanonicalDER", lambda e: e["ev"] == "key" and e.get("refok") and e.get("canon"), dict(canon=False))
    corrupt("EqualIffEncodingEqual", lambda e: e["ev"] == "pair" and e["valid"] and e["equal"], dict(enceq=False))
    corrupt("RejectInvalid", lambda e: e["ev"] == "idtext" and not e["err"], dict(back=[45] * 43, tb=[48] * 43))
    corrupt("OrderPreserving", lambda e: e["ev"] == "idpair" and e["cmp"] < 0, dict(cmp=1, cmpba=-1, lt=False))
    trace = os.path.join(d, "trace.ndjson")
    with open(trace, "w") as f:
        for e in events:
            f.write(json.dumps(e) + "\n")
    res = tlcretry.validate_trace("KeysTrace", "KeysTrace.cfg", trace, nshards=1, timeout=1500)
    seen = set()
    violations = []
    real = [(ln, ops) for _t, ln, _c, ops in res["viol"] if ln not in selftest]
    thresholds = {op: length_threshold(op, events, real) for op in ("RoundTrip", "CanonicalDER")}
    for _tag, lineno, _c, ops in res["viol"]:
        if lineno in selftest:
            if selftest[lineno] in ops:
                seen.add(lineno)
            continue
        e = events[lineno - 1]
        for op in ops:
            key = violation_key(op, e, thresholds)
            if e["ev"] == "fp":
                prev = events[lineno - 2]
                what = "%s false: swarm kind %s computes id %s at site %r and %s at site %r for the same key %s" % (
                    op, e["kind"], prev["id"][:16], prev["site"], e["id"][:16], e["site"], e["key"][:40])
                payload = dict(mode="harvest", events=[prev, e])
            else:
                what = "%s false on the real code for %s case %s (variant %d)%s" % (
                    op, e["ev"], e.get("class"), e.get("var", 0),
                    (", panic: " + e["panicv"]) if e.get("panic") else (", parse error: " + e["perrmsg"]) if e.get("perr") else "")
                payload = dict(mode="gen", case=by_id.get(e.get("case")), seed=seed, variants=variants, event=e)
            violations.append((key, what, payload))
    if len(seen) != len(selftest):
        raise core.Inconclusive("binding self-test: KeysTrace did not reject corrupted events %s" % sorted(set(selftest) - seen))
    stats["binding_selftest"] = "%d corrupted events rejected" % len(selftest)
    for dr in res["drift"]:
        if dr[1] in selftest:
            continue
        stats["drift"] += 1
        if len(stats["drift_samples"]) < 3:
            e = events[dr[1] - 1]
            stats["drift_samples"].append(dict(line=dr[1], what=dr[3], ev=e["ev"], cls=e.get("class")))
    stats["events"] = len(events) - len(selftest)
    stats["cases"] = len(cases)
    obs = res.get("obs") or []
    stats["fp_events"] = len(fp)
    kinds = {}
    for e in fp:
        kinds.setdefault(e["key"], {})[e["kind"]] = e["id"]
    stats["cross_swarm_differences"] = sum(1 for v in kinds.values() if len(set(v.values())) > 1)
    # distinct non-trivial: distinct inputs other than the well-formed Ed25519 32-byte key / the valid text of an id
    distinct = set()
    for e in rest:
        if e["ev"] in ("key", "der"):
            if not (e["ev"] == "key" and e.get("class", "").startswith("ed25519/len32")):
                distinct.add(("der", e["der"]))
        elif e["ev"] == "pair":
            distinct.add(("pair", e["class"], e["var"]))
        elif e["ev"] == "wires":
            for i, a in enumerate(e["acc"]):
                if a and e["forms"][i] not in ("canonical", "std"):
                    distinct.add(("wire", e["class"], e["var"], e["forms"][i]))
        elif e["ev"] == "idtext":
            if "/valid/" not in e["class"]:
                distinct.add(("t", tuple(e["tb"])))
        elif e["ev"] == "idpair":
            if e["a"] != e["b"]:
                distinct.add(("p", tuple(e["a"]), tuple(e["b"])))
    stats["distinct_nontrivial"] = len(distinct)
    kinds_seen = {}
    for c in cases:
        kinds_seen.setdefault(c["c"]["kind"], c)
    stats["samples"] = [dict(case=c["c"]) for c in list(kinds_seen.values())[:5]]
    stats["wall"] = time.time() - t0
    return stats, violations


def check(pid, tier, replay=None):
    t0 = time.time()
    if replay:
        with open(replay) as f:
            rp = json.load(f)["payload"]
        if rp.get("mode") == "gen" and rp.get("case"):
            stats, violations = run_pipeline(tier, cases=[rp["case"]], harvest=False, seed=rp.get("seed"), variants=rp.get("variants"))
        else:
            stats, violations = run_pipeline(tier, cases=[], harvest=True)
    else:
        stats, violations = run_pipeline(tier)
    mine = [core.Violation(pid, key, what, core.write_replay(pid, key, payload)) for key, what, payload in violations]
    if stats["drift"]:
        print("DRIFT component=Keys events=%d (model and code disagree without falsifying a law) e.g. %s"
              % (stats["drift"], json.dumps(stats["drift_samples"][:2])))
    if stats.get("cross_swarm_differences"):
        print("OBSERVATION property=C17 p2pkeswarm and quicswarm compute different peer ids for the same key (%d keys): "
              "different hash functions, intra-swarm consistency is what is asserted" % stats["cross_swarm_differences"])
    m = stats.get("model", dict(states=0, transitions=0))
    coverage = dict(
        evaluations=stats["events"], distinct_nontrivial=stats["distinct_nontrivial"],
        rule="evaluations = trace events (one per concretised key / key pair / DER form / peer-id text / id pair case, plus one per "
             "fingerprint observation); distinct_nontrivial = distinct encodings, texts and pairs among them other than the "
             "well-formed 32-byte Ed25519 key and the valid text of an id",
        samples=stats.get("samples") or [dict(note="replay run")],
        states=m["states"], transitions=m["transitions"], traces_validated_against_impl=stats["events"],
        abstract_cases=stats.get("cases", 0), fingerprint_observations=stats.get("fp_events", 0),
        harvested_fingerprints=stats.get("harvested_fp", 0), cross_swarm_differences=stats.get("cross_swarm_differences", 0),
        drift_events=stats["drift"], model=stats.get("model", {}), model_selftest=stats.get("model_selftest", "not run in this tier"),
        binding_selftest=stats.get("binding_selftest", ""), exhaustive=False,
        explanation="exhaustive over the abstract class space of Keys.tla (laws checked by TLC on the modelled codecs); concrete bytes sampled per class")
    core.write_evidence(pid, tier, "exploration", coverage,
                        ["encoding/asn1 is modelled at structure level; the peer-id text codec is modelled exactly",
                         "non-canonical DER is built by an independent hand-written encoder in the harness",
                         "fingerprint sites of running swarms need loopback UDP",
                         "TLC, the Json/IOUtils community modules and the Go toolchain are trusted"],
                        time.time() - t0, len(mine))
    return core.verdict(pid, mine)
