"""G01 (growth component): the SWARM-LEVEL composition in s/p2pkeswarm, decided with spec/P2pkeSwarm.tla.

Beyond the listed properties: the channel store keyed by transport address (getOrCreate on Tell and on incoming
traffic), the identity comparison after WaitReady, the whitelist at delivery, the cleanup loop with its idle clock,
and Close.  Properties (spec/P2pkeSwarm.tla, over observables):
  (a) NoLossByCleanup      a Tell that returned nil and reached the peer's handler is delivered (allowed causes listed)
  (b) StoreBounded         one channel per address; a channel that left the store was closed and is silent
  (c) CleanupTransparent   after a purge the next Tell / incoming handshake builds a fresh channel and traffic resumes
  (d) CloseStops           after Close no Send callback fires and Tell fails

 1. TLC model-checks P2pkeSwarm.tla (safety configs with VIEW, liveness configs without), including the *_orig_*
    configs in which one repair made to /repo during this work is NOT modelled: TLC must find the defect there
    (self-test of the properties), and the *_strict config in which the recorded known finding is not excused.
 2. TLC generates behaviours (P2pkeSwarmGen.tla): the targeted scripts of P2pkeSwarmScripts.tla followed as paths, and
    random simulation.
 3. harness/cmd/pkswarmreplay executes them on REAL p2pkeswarm nodes over harness-owned FIFO links, with the Go
    runtime's virtual clock (build tag faketime): the real cleanupLoop, keep-alive expiry and handshake timers run
    unchanged, the 30 s grace period costs nothing.
 4. TLC evaluates the property operators on the log (P2pkeSwarmTrace.tla): VIOL -> VIOLATION / KNOWN-FINDING,
    DRIFT -> reported only.
"""
import json
import os
import re
import subprocess
import time
from concurrent.futures import ThreadPoolExecutor

from . import core

EXTRA = ["G01"]

KNOWN_KEY = "G01:ChannelCloseNotTerminal"
KNOWN_OPS = {"CleanupTransparentKnown", "NoLossKnown", "CloseStopsKnown"}

# name -> (cfg, workers, expectation): "holds" = must complete cleanly, "violated" = TLC must find a counterexample
MC = {
    "quick": dict(
        safety=("P2pkeSwarm_quick.cfg", 2, "holds"),
        ident=("P2pkeSwarm_ident.cfg", 2, "holds"),
        close=("P2pkeSwarm_close.cfg", 3, "holds"),
        live=("P2pkeSwarm_live.cfg", 2, "holds"),
        orig_close=("P2pkeSwarm_orig_close.cfg", 1, "violated"),
    ),
    "thorough": dict(
        safety=("P2pkeSwarm_quick.cfg", 2, "holds"),
        ident=("P2pkeSwarm_ident.cfg", 2, "holds"),
        close=("P2pkeSwarm_close.cfg", 3, "holds"),
        hold=("P2pkeSwarm_hold.cfg", 3, "holds"),
        drop=("P2pkeSwarm_drop.cfg", 3, "holds"),
        good3=("P2pkeSwarm_good3.cfg", 4, "holds"),
        good3g=("P2pkeSwarm_good3g.cfg", 4, "holds"),
        junk=("P2pkeSwarm_junk.cfg", 4, "holds"),
        live=("P2pkeSwarm_live.cfg", 2, "holds"),
        live_race=("P2pkeSwarm_live_race.cfg", 2, "holds"),
        live_race_strict=("P2pkeSwarm_live_race_strict.cfg", 2, "violated"),
        orig_close=("P2pkeSwarm_orig_close.cfg", 1, "violated"),
        orig_empty=("P2pkeSwarm_orig_empty.cfg", 1, "violated"),
        orig_evict=("P2pkeSwarm_orig_evict.cfg", 1, "violated"),
        orig_lastSent=("P2pkeSwarm_orig_lastSent.cfg", 3, "violated"),
    ),
}
GEN = {
    "quick": [("script", "P2pkeSwarmGen_main.cfg", None), ("wl", "P2pkeSwarmGen_wl.cfg", None), ("sim", "P2pkeSwarmGen_sim.cfg", 60)],
    "thorough": [("script", "P2pkeSwarmGen_main.cfg", None), ("wl", "P2pkeSwarmGen_wl.cfg", None), ("sim", "P2pkeSwarmGen_sim.cfg", 500)],
}


def build_replayer():
    """The replayer needs the runtime's virtual clock: tags verif,faketime and no cgo."""
    old = os.environ.get("CGO_ENABLED")
    os.environ["CGO_ENABLED"] = "0"
    try:
        return core.go_build("pkswarmreplay", tags="verif,faketime")
    finally:
        if old is None:
            del os.environ["CGO_ENABLED"]
        else:
            os.environ["CGO_ENABLED"] = old


CHUNK = 8


def run_chunk(binp, beh_path, trace_path):
    """One replayer process. The virtual-clock runtime has been seen to hang (GC vs. clock, worked around in the
    replayer), and a defective swarm can leave timers behind that slow every later behaviour of the same process
    down: a hung attempt is killed and repeated, never believed."""
    last = ""
    for attempt in range(3):
        for p in (trace_path, trace_path + ".done"):
            if os.path.exists(p):
                os.remove(p)
        try:
            subprocess.run([binp, "-in", beh_path, "-out", trace_path], stdout=subprocess.DEVNULL, stderr=subprocess.DEVNULL,
                           timeout=90, env=dict(os.environ, GOGC="off"))
        except subprocess.TimeoutExpired:
            last = "timeout"
            core.log("pkswarmreplay hung on %s (attempt %d), repeating" % (os.path.basename(beh_path), attempt + 1))
            continue
        if os.path.exists(trace_path + ".done"):
            return
        last = "no result file"
    raise core.Inconclusive("pkswarmreplay did not complete: " + last)


def run_replayer(binp, beh_lines, d, trace_path):
    """Behaviours are executed CHUNK per process (what one behaviour leaves behind cannot reach far), four processes
    at a time (virtual time: the processes mostly wait for nothing), and the traces are concatenated in order."""
    chunks = [beh_lines[i:i + CHUNK] for i in range(0, len(beh_lines), CHUNK)]
    paths = []
    for k, ch in enumerate(chunks):
        bp = os.path.join(d, "beh%04d.ndjson" % k)
        with open(bp, "w") as f:
            f.writelines(ch)
        paths.append((bp, os.path.join(d, "trace%04d.ndjson" % k)))
    with ThreadPoolExecutor(max_workers=4) as ex:
        list(ex.map(lambda p: run_chunk(binp, *p), paths))
    n = 0
    with open(trace_path, "w") as out:
        for _bp, tp in paths:
            with open(tp) as f:
                for line in f:
                    out.write(line)
                    n += 1
    return "%d behaviours in %d processes, %d events" % (len(beh_lines), len(chunks), n)


def model_check(tier, stats, only=None):
    ex = ThreadPoolExecutor(max_workers=6)

    def one(name, cfg, workers, expect):
        res = core.tlc("MC_P2pkeSwarm", cfg, workers=workers, timeout=1500, label="mc-" + name, heap="6g",
                       short=(expect == "violated" and name != "orig_lastSent"))
        if expect == "holds":
            core.tlc_ok_or_inconclusive(res, "MC P2pkeSwarm/" + name)
        else:
            violated = res.violated or re.findall(r"Temporal property (\S+) was violated", res.out)
            if not violated:
                raise core.Inconclusive("self-test: TLC found no counterexample in %s (the specification no longer "
                                        "distinguishes the defect it was written against)\n%s" % (cfg, res.out[-1500:]))
        stats["mc"][name] = dict(cfg=cfg, expect=expect, states=res.distinct, transitions=res.generated, depth=res.depth,
                                 wall=round(res.wall, 1),
                                 violated=res.violated or re.findall(r"Temporal property (\S+) was violated", res.out))

    futs = [ex.submit(one, name, *spec) for name, spec in MC[tier].items() if only is None or name in only]
    return futs, ex


def generate(tier, stats):
    behs = []

    def one(fam, cfg, nsim):
        if nsim is None:
            res = core.tlc("MC_P2pkeSwarmGen", cfg, workers=1, timeout=600, label="gen-" + fam, short=True)
        else:
            res = core.tlc("MC_P2pkeSwarmGen", cfg, workers=1, simulate=nsim, depth=4000, tlc_seed=core.seed(), timeout=900,
                           label="gen-" + fam, short=(nsim <= 200))
        core.tlc_ok_or_inconclusive(res, "Gen " + fam)
        bs = [x[1] for x in res.printed("BEH")]
        if not bs:
            raise core.Inconclusive("generator %s produced nothing" % fam)
        want = [x[1] for x in res.printed("NSCRIPTS")]
        if nsim is None and (not want or want[0] != len(bs)):
            raise core.Inconclusive("generator %s: %s scripts, %d behaviours (a script is not executable in the model)" % (fam, want, len(bs)))
        return fam, bs

    with ThreadPoolExecutor(max_workers=3) as ex:
        for fam, bs in ex.map(lambda g: one(*g), GEN[tier]):
            stats["behaviours"][fam] = len(bs)
            for b in bs:
                behs.append(dict(family=fam, wla=b["wla"], wlb=b["wlb"], hist=b["hist"]))
    return behs


def replay_and_validate(binp, behs, stats):
    d = core.scratch("pkswarm")
    tp = os.path.join(d, "trace.ndjson")
    byid, blines = {}, []
    for i, b in enumerate(behs):
        b = dict(b, id=i + 1)
        byid[i + 1] = b
        blines.append(json.dumps(b) + "\n")
    core.log("pkswarmreplay: " + run_replayer(binp, blines, d, tp))
    res = core.validate_trace("P2pkeSwarmTrace", "P2pkeSwarmTrace.cfg", tp, nshards=1)
    stats["events"], stats["trace_states"] = res["events"], res["states"]
    lines = open(tp).readlines()
    stats["stall_ms"] = max([json.loads(l).get("stall_ms", 0) for l in lines if '"ev":"end"' in l] or [0])
    tells = dict(ok=0, ctx=0, closed=0, other=0, delivered=0)
    for l in lines:
        if '"ev":"end"' in l:
            for r in json.loads(l).get("tells", []):
                tells[r["ret"] if r["ret"] in tells else "other"] += 1
                tells["delivered"] += 1 if r["delivered"] else 0
    stats["tells"] = tells
    violations = []
    for _tag, lineno, beh, ops in res["viol"]:
        ev = json.loads(lines[lineno - 1])
        fam = byid[beh]["family"]
        for op in ops:
            key = KNOWN_KEY if op in KNOWN_OPS else "G01:%s:%s" % (op, fam)
            acts = [s["act"] for s in byid[beh]["hist"]]
            what = "%s false on real p2pkeswarm nodes (family %s, behaviour %d, event line %d, action %d of %s)" % (
                op, fam, beh, lineno, ev.get("i", -1), json.dumps([a["a"] for a in acts]))
            payload = dict(behaviour=byid[beh], operator=op,
                           event={k: ev[k] for k in ev if k not in ("exp",)})
            violations.append((key, what, payload))
    stats["drift"] = len(res["drift"])
    for dr in res["drift"][:3]:
        stats["drift_samples"].append(dict(line=dr[1], behaviour=dr[2], family=byid[dr[2]]["family"], at=dr[3]))
    stats["drift_behaviours"] = len({dr[2] for dr in res["drift"]})
    return violations, byid


def verdict(violations):
    """Like core.verdict, but the known findings of a growth component are recorded under the LISTED property they
    belong to (known_findings.json: property C07, key G01:...): match by key."""
    kf = {k["key"]: k for k in core.known_findings() if k.get("key", "").startswith("G01:") and k.get("status", "open") == "open"}
    rc, seen, reported = 0, set(), set()
    for v in violations:
        if v.key in kf:
            if v.key not in seen:
                seen.add(v.key)
                print("KNOWN-FINDING: property=G01 (recorded under %s) %s [%s]" % (kf[v.key]["property"], kf[v.key]["what"], v.key))
            continue
        if v.key in reported:
            continue
        reported.add(v.key)
        rc = 1
        print("VIOLATION property=G01 replay=%s" % (v.replay or "-"))
        print("  what: %s [%s]" % (v.what, v.key))
    return rc


def check(pid, tier, replay=None):
    t0 = time.time()
    stats = dict(mc={}, behaviours={}, events=0, trace_states=0, drift=0, drift_samples=[], drift_behaviours=0)
    if replay:
        with open(replay) as f:
            behs = [json.load(f)["payload"]["behaviour"]]
        stats["behaviours"]["replay"] = 1
        futs, ex = model_check(tier, stats, only={"safety"})
        binp = build_replayer()
    else:
        futs, ex = model_check(tier, stats)
        with ThreadPoolExecutor(max_workers=1) as bex:
            bf = bex.submit(build_replayer)
            behs = generate(tier, stats)
            binp = bf.result()
    raw, byid = replay_and_validate(binp, behs, stats)
    for f in futs:
        f.result()
    ex.shutdown()
    mine, seen = [], set()
    for key, what, payload in raw:
        if key in seen:
            continue
        seen.add(key)
        mine.append(core.Violation(pid, key, what, core.write_replay(pid, key, payload)))
    if stats["drift"]:
        print("DRIFT component=P2pkeSwarm steps=%d in %d of %d behaviours (model prediction and real projection disagree; on the "
              "tree this was built for that happens only through the hello-hash tie-break of simultaneous handshakes, which "
              "the real hashes decide; no property is falsified by drift alone) e.g. %s"
              % (stats["drift"], stats["drift_behaviours"], len(behs), json.dumps(stats["drift_samples"][:2])))
    holds = [v for v in stats["mc"].values() if v["expect"] == "holds"]
    ids = sorted(byid)
    samples = [dict(family=byid[i]["family"], actions=[s["act"] for s in byid[i]["hist"]][:24]) for i in ids[:1] + ids[-1:]]
    coverage = dict(
        states=max(sum(v["states"] for v in holds), 1),
        transitions=max(sum(v["transitions"] for v in holds), 1),
        traces_validated_against_impl=len(behs),
        samples=samples,
        evaluations=stats["events"], distinct_nontrivial=stats["trace_states"],
        rule="evaluations = environment actions (tell, tick, close, junk, hold, release, drop) executed on real p2pkeswarm "
             "nodes under the virtual clock, each observed after the system settled and validated by TLC; "
             "distinct_nontrivial = distinct states of the trace specification",
        model_checking=stats["mc"], behaviours=stats["behaviours"], drift_steps=stats["drift"],
        drift_behaviours=stats["drift_behaviours"], tells=stats.get("tells", {}), harness_stall_ms=stats.get("stall_ms", 0),
        self_tests=sorted(k for k, v in stats["mc"].items() if v["expect"] == "violated"),
        exhaustive=False)
    core.write_evidence(pid, tier, "model_checking", coverage,
                        ["channels are abstract (previous/current/prospective session, bound key, timers armed or not); their exact machine is Channel.tla",
                         "each directed link delivers in order (reordering, duplication, replay are Channel.tla's business); packets to the third address vanish",
                         "one tick = 3.75 s; actions inside a tick at increasing offsets; rekey (120 s) and reject (180 s) times are beyond the modelled horizon",
                         "the replayer runs the real code on the Go runtime's virtual clock (build tag faketime, GC off): time advances only when every goroutine is blocked",
                         "the tie-break between simultaneous handshakes is decided by creation order in the model and by hello hashes in the code (drift, not a violation)",
                         "TLC liveness checking without VIEW; time advances only when nothing else is enabled"],
                        time.time() - t0, len([v for v in mine]))
    return verdict(mine)
