"""C15: multiplexed channels are isolated and framing is unambiguous (p/p2pmux, five kinds), decided with spec/Mux.tla.

 1. TLC checks RoundTrip / Isolation (every case) and Injective / PrefixFree (all pairs) on the byte-exact
    model of the five framings (Mux_cases.cfg, Mux_pairs.cfg).
 2. TLC (MuxGen) enumerates the cases: kind x boundary channel ids x payload classes x tell/ask, every set
    of <= 3 open confusable channels x every confusable sending channel, raw (unframed) bytes.
 3. harness/cmd/muxreplay executes every case on the real multiplexers through the public API: the frame is
    observed as the bytes the sending mux hands to netsim; the receiving mux gets them injected and the
    harness records which opened swarm's callback saw which payload.
 4. TLC evaluates the operators of Mux.tla on the observations (MuxTrace.tla).
"""
import json
import os
import time
from concurrent.futures import ThreadPoolExecutor

from . import core

PROPERTIES = ["C15"]

MANIFEST = {
    "C15": dict(level="model_checking",
                technique="TLA+ spec (Mux.tla: byte-exact framing of the five p2pmux kinds, uvarint as encoding/binary, dispatch) "
                          "checked with TLC; TLC-enumerated cases executed on the real multiplexers (netsim observes the frames, "
                          "injects them into the receiving mux); observed frames and dispatches validated by TLC (MuxTrace.tla)",
                text="TLC checks RoundTrip, Injective, PrefixFree and Isolation on Mux.tla for every listed channel id (empty string, "
                     "prefixes of each other, 0, 2^16-1, 2^32-1, 2^64-1, varint boundaries 127/128/16383/16384, names of 127..16384 "
                     "bytes), payload class and set of <= 3 open channels, and evaluates the same operators on the frames the real "
                     "muxes emitted and on which opened swarm's Receive/ServeAsk callback saw which payload, for Tell and Ask.",
                note="Finite id/payload classes (Mux.tla Ids, IsoIds, Payloads, RawFrames); the thorough tier adds seeded random ids "
                     "and payloads. Public API only; the mux's inner swarm is the harness (netsim). Trusts TLC, the Json/IOUtils "
                     "community modules and the Go toolchain.",
                ref="5 (C15), 3.6"),
}

KIND_NAME = {"str": "stringmux", "var": "varintmux", "u16": "uint16mux", "u32": "uint32mux", "u64": "uint64mux"}
ORDER = {"frame": 0, "iso": 1, "raw": 2}


def random_cases(n, seed):
    """Thorough tier: seeded random channel ids / payloads on top of the TLC-enumerated classes."""
    import random
    rnd = random.Random(seed)
    out = []
    width = {"u16": 16, "u32": 32, "u64": 64, "var": 64}
    for _ in range(n):
        kind = rnd.choice(list(KIND_NAME))
        if kind == "str":
            ln = rnd.choice([0, 1, 2, 3, 5, 17, 126, 127, 128, 129, 300])
            mk = lambda: [rnd.choice([0, 1, 2, 97, 98, 127, 128, 255]) for _ in range(ln)]
        else:
            w = rnd.choice([b for b in (7, 8, 14, 15, 16, 21, 28, 32, 35, 49, 56, 63, 64) if b <= width[kind]])
            mk = lambda: sorted(b for b in range(w) if rnd.random() < 0.5)
        c = mk()
        others = [mk() for _ in range(rnd.choice([0, 1, 2]))]
        opens = [o for o in others if o != c]
        if rnd.random() < 0.8:
            opens.append(c)
        if not opens:
            opens = [c]
        opens = [o for i, o in enumerate(opens) if o not in opens[:i]]      # a channel can be opened once
        x = [rnd.choice([0, 1, 97, 127, 128, 255]) for _ in range(rnd.choice([0, 1, 2, 9, 40]))]
        out.append(dict(cls="iso", kind=kind, open=opens, c=c, x=x, op=rnd.choice(["tell", "ask"])))
    return out


def run_pipeline(tier, only_kind=None):
    stats = dict(mc={})
    d = core.scratch("mux")
    binp = core.go_build("muxreplay")
    ex = ThreadPoolExecutor(max_workers=4)

    def mc(cfg):
        res = core.tlc("Mux", cfg, workers=4, timeout=900, label="mc-" + cfg[:-4])
        core.tlc_ok_or_inconclusive(res, "MC " + cfg)
        stats["mc"][cfg[:-4]] = dict(states=res.distinct, transitions=res.generated, wall=round(res.wall, 1))

    side = [ex.submit(mc, "Mux_cases.cfg"), ex.submit(mc, "Mux_pairs.cfg")]
    res = core.tlc("MuxGen", "MuxGen.cfg", workers=1, timeout=900, label="gen")
    core.tlc_ok_or_inconclusive(res, "MuxGen")
    cases = [x[1] for x in res.printed("CASE")]
    if len(cases) < 1000:
        raise core.Inconclusive("MuxGen produced only %d cases" % len(cases))
    if tier == "thorough":
        cases += random_cases(6000, core.seed())
    if only_kind:
        cases = [c for c in cases if c["kind"] == only_kind]
    cases.sort(key=lambda c: (ORDER[c["cls"]], c["kind"], json.dumps(c["c"]), json.dumps(c["open"]), c["op"], json.dumps(c["x"])))
    for i, c in enumerate(cases):
        c["id"] = i + 1
    p = os.path.join(d, "cases.ndjson")
    with open(p, "w") as f:
        for c in cases:
            f.write(json.dumps(c) + "\n")
    tr = os.path.join(d, "trace.ndjson")
    out = core.run([binp, "-in", p, "-out", tr], timeout=900)
    core.log("muxreplay: " + (out.strip().splitlines()[-1] if out.strip() else ""))
    tv = core.validate_trace("MuxTrace", "MuxTrace.cfg", tr, nshards=1, timeout=1500)
    lines = open(tr).readlines()
    violations = []
    for v in tv["viol"]:
        _tag, lineno, cid, ops = v
        e = json.loads(lines[lineno - 1])
        for op in ops:
            key = "C15:%s:%s/%s" % (op, KIND_NAME.get(e["kind"], e["kind"]), e["op"] if e["cls"] != "raw" else "raw-" + e["op"])
            what = ("%s false on the real %s (%s, class %s): channel %s payload %s open %s -> observed frame %s, dispatches %s (case %d)"
                    % (op, KIND_NAME.get(e["kind"]), e["op"], e["cls"], str(e["c"])[:60], str(e["x"])[:60], str(e["open"])[:80],
                       str(e["frame"])[:80], str(e["disp"])[:120], cid))
            small = {k: (v if len(json.dumps(v)) < 2000 else "<long>") for k, v in e.items()}
            violations.append((key, what, dict(kind=e["kind"], case=small, operator=op)))
    ndisp = sum(1 for ln in lines if '"disp":[{' in ln)
    distinct = len({(json.loads(ln)["kind"], json.dumps(json.loads(ln)["frame"])) for ln in lines}) if len(lines) < 20000 else ndisp
    for f in side:
        f.result()
    ex.shutdown()
    stats.update(cases=len(cases), events=tv["events"], trace_states=tv["states"], drift=len(tv["drift"]),
                 drift_samples=[dict(line=x[1], case=x[2], what=x[3]) for x in tv["drift"][:3]],
                 dispatched=ndisp, distinct_frames=distinct,
                 samples=[{k: c[k] for k in ("cls", "kind", "open", "c", "x", "op")} for c in (cases[0], cases[len(cases) // 2], cases[-1])])
    return stats, violations


def check(pid, tier, replay=None):
    t0 = time.time()
    only = None
    if replay:
        with open(replay) as f:
            only = json.load(f)["payload"].get("kind")
    stats, violations = run_pipeline(tier, only)
    if stats["dispatched"] < stats["cases"] // 4:
        raise core.Inconclusive("vacuous run: only %d of %d cases reached an opened channel" % (stats["dispatched"], stats["cases"]))
    mine = [core.Violation(pid, key, what, core.write_replay(pid, key, payload)) for key, what, payload in violations]
    if stats["drift"]:
        print("DRIFT component=Mux steps=%d (model and code disagree on steps that falsify no listed property) e.g. %s"
              % (stats["drift"], json.dumps(stats["drift_samples"][:2])))
    coverage = dict(
        states=max(sum(v["states"] for v in stats["mc"].values()), 1),
        transitions=max(sum(v["transitions"] for v in stats["mc"].values()), 1),
        traces_validated_against_impl=stats["cases"],
        samples=stats["samples"],
        evaluations=stats["events"],
        distinct_nontrivial=stats["distinct_frames"],
        rule="evaluations = cases executed on the real multiplexers and validated by TLC; distinct_nontrivial = distinct "
             "(kind, observed frame bytes) pairs among them",
        model_checking=stats["mc"], dispatched_cases=stats["dispatched"], drift_steps=stats["drift"], exhaustive=(tier == "quick"),
        explanation="TLC checks the four laws on Mux.tla over the listed id/payload/open-set classes and evaluates them on the "
                    "frames and dispatches observed on the real p2pmux for every generated case")
    core.write_evidence(pid, tier, "model_checking", coverage,
                        ["the frame is what the sending mux hands to its inner swarm (netsim); nothing is parsed by the harness",
                         "a frame for an open channel that is not delivered is reported as DRIFT, not as a violation",
                         "raw (unframed) bytes are judged against Mux!Frame only while no framing drift was observed for the kind",
                         "TLC, the Json/IOUtils community modules and the Go toolchain are trusted"],
                        time.time() - t0, len(mine))
    return core.verdict(pid, mine)
