"""G07 (growth: wire formats and the signature registry): the four hand-written codecs no listed property
covers, each transcribed into TLA+ AS CODED, model-checked over a scaled-down domain, and bound to the real
functions: TLC generates the cases, harness/cmd/wirereplay executes every one on the code built from /repo,
and a trace specification evaluates the law operators on what the real functions returned.

 mbapp   p/mbapp/message.go + swarm.go      MbappHeader.tla / MbappHeaderTrace
         Header as a bit layout and as coded (mask/shift arithmetic, W = 4 and 8 bits per word, every header with
         one bit set / cleared x every field x every value): RoundTrip, Frame (no setter disturbs another
         field), truncation of the sender's integer, HeaderSize, ShortRejected; at W = 32 the class cases
         (uniform / one-hot / one-cold headers at the field boundaries x value classes 0, 1, max, max-1, msb,
         max+1, byte boundaries) run on the real setters and getters.  FlagsExact / FlagsComplete: the flag
         combinations the real handleMessage accepts versus the ones the real sender emits.
 frame   s/quicswarm/quicswarm.go           QuicFrame.tla / QuicFrameTrace
         writeFrame / readFrame: RoundTrip, NoTruncatedSuccess, TooBigIsError, ShortReadIsError (EOF or an
         error after k bytes, every k), ShortDstIsError, NoOverrun, ExactConsumption, WireForm, WriteError;
         readers that return one byte per Read, writers that fail after k bytes, lengths around 2^8 and 2^16.
 sig     f/x509/registry.go + x509.go       SigRegistry.tla / SigRegistryTrace
         SignVerify, TamperFails (one bit of message / signature / public key / private key by position
         class, another key, truncated / extended signature), UnknownAlgoIsError for every entry point x
         algorithm-id class x key length, PublicFromPrivate (deterministic, = crypto/ed25519), private-key
         Marshal/Parse round trip, concurrent use (under -race in the thorough tier).
 ke      p/p2pke/messages.go + session.go   KeMessage.tla / KeMessageTrace
         CounterRoundTrip at the byte-order classes, ShortIsError, Classify / Dispatch (IsInitHello... versus
         Session.Deliver on fresh sessions), NoAlias, PurposeBinding (sign/verify purpose tags, domain
         separation of createPreSig checked in the model), Claim (makeChannelAuthClaim -> verifyAuthClaim).

Verdict policy (BUILDING.md): VIOLATION only when the REAL code falsifies a law operator evaluated by TLC in a
trace specification; DRIFT when it merely differs from the as-coded model; a counterexample in a model alone, a
build error or a timeout is INCONCLUSIVE.  Recorded findings: known_findings.json, keys "G07:...".
"""
import json
import os
import time
from concurrent.futures import ThreadPoolExecutor

from . import core

EXTRA = ["G07"]

PID = "G07"

TIERS = {
    "quick": dict(mb_mc=["MbappHeader_w4.cfg"], mb_limit=1500, fr_cfg="QuicFrame_q.cfg", fr_limit=3000,
                  sig_cfg="SigRegistry_q.cfg", sig_kf=False, hammer=(8, 40), race=False, ke_mc=["KeMessage_small.cfg"]),
    "thorough": dict(mb_mc=["MbappHeader_w4.cfg", "MbappHeader_w8.cfg"], mb_limit=None, fr_cfg="QuicFrame_t.cfg", fr_limit=None,
                     sig_cfg="SigRegistry_t.cfg", sig_kf=True, hammer=(16, 300), race=True, ke_mc=["KeMessage_small.cfg"]),
}


class Stats:
    def __init__(self):
        self.mc = {}
        self.expected_violations = {}
        self.cases = {}
        self.events = {}
        self.trace_states = {}
        self.drift = []
        self.samples = []


def _mc(stats, name, module, cfg, workers=2, timeout=900, short=True):
    res = core.tlc(module, cfg, workers=workers, timeout=timeout, short=short, label="mc-" + name.replace("/", "-"))
    core.tlc_ok_or_inconclusive(res, "MC " + name)
    stats.mc[name] = dict(states=res.distinct, transitions=res.generated, depth=res.depth, wall=round(res.wall, 1))
    return res


def _expect_violation(stats, name, module, cfg, prop):
    """A law the AS-CODED (unrepaired) model is expected to violate: the witness of a repaired defect."""
    res = core.tlc(module, cfg, workers=1, timeout=600, short=True, label="kf-" + name.replace("/", "-"))
    if prop not in res.violated:
        raise core.Inconclusive("%s: the model was expected to violate %s (%s) and does not:\n%s" % (name, prop, cfg, res.out[-2000:]))
    stats.expected_violations[name] = prop


def _sample(cases, limit, keep=lambda c: False):
    """A seeded stride sample of about `limit` cases (all of them when limit is None); cases for which keep(c)
    holds are always executed."""
    if limit is None or len(cases) <= limit:
        return cases
    stride = -(-len(cases) // limit)
    if stride % 2 == 0:
        stride += 1
    return [c for i, c in enumerate(cases) if keep(c) or (i + core.seed()) % stride == 0]


def _replay(binp, mode, cases, d, stats, race_bin=None):
    cp, tr = os.path.join(d, mode + ".ndjson"), os.path.join(d, mode + ".trace")
    with open(cp, "w") as f:
        for i, c in enumerate(cases):
            c["id"] = i + 1
            f.write(json.dumps(c) + "\n")
    out = core.run([race_bin or binp, "-mode", mode, "-in", cp, "-out", tr], timeout=900)
    core.log("wirereplay %s: %s" % (mode, out.strip()[-300:]))
    with open(tr) as f:
        lines = f.readlines()
    if len(lines) != len(cases):
        raise core.Inconclusive("%s: %d events for %d cases" % (mode, len(lines), len(cases)))
    return tr, lines


def _collect(piece, module, tr, lines, cases, stats, ctx_of, describe, chunk=None):
    tv = core.validate_trace(module, module + ".cfg", tr, nshards=1, chunk=chunk)
    stats.events[piece] = tv["events"]
    stats.trace_states[piece] = tv["states"]
    viol = []
    for _t, ln, _id, ops in tv["viol"]:
        ev = json.loads(lines[ln - 1])
        for op in ops:
            viol.append(("G07:%s:%s" % (op, ctx_of(ev, op)), "%s false on the real code: %s" % (op, describe(ev)),
                         dict(piece=piece, case=cases[ln - 1], event=ev, operator=op)))
    for _t, ln, _id, what in tv["drift"]:
        stats.drift.append(dict(piece=piece, what=what, event=_brief(json.loads(lines[ln - 1]))))
    return viol


def _brief(ev):
    return {k: v for k, v in ev.items() if v not in ("", [], 0, False, None) and k not in ("g0", "g1")}


# ----------------------------------------------------------------------------
# mbapp header

def _hex(bs):
    return "".join("%02x" % b for b in bs)


def run_mbapp(tier, binp, d, stats):
    T = TIERS[tier]
    with ThreadPoolExecutor(max_workers=3) as ex:
        side = [ex.submit(_mc, stats, "mbapp/" + cfg, "MbappHeader", cfg, 4, 1500, cfg.endswith("w4.cfg")) for cfg in T["mb_mc"]]
        gen = ex.submit(_mc, stats, "mbapp/MbappHeader_gen.cfg", "MbappHeader", "MbappHeader_gen.cfg", 2)
        res = gen.result()
        raw = res.printed("CASE")
        if len(raw) != res.distinct or not raw:
            raise core.Inconclusive("MbappHeader_gen: %d cases printed for %d states" % (len(raw), res.distinct))
        stats.cases["mbapp/set-generated"] = len(raw)
        sets = [dict(kind="set", h=c[1], f=c[2], v=c[3]) for c in raw]
        uniform = lambda c: sum(c["h"]) in (0, 192, 96)
        cases = _sample(sets, T["mb_limit"], uniform)
        stats.cases["mbapp/set"] = len(cases)
        cases += [dict(kind="parse", n=n) for n in (0, 1, 4, 22, 23, 24, 25, 26, 48, 1000)]
        cases += [dict(kind="emit", api=a) for a in ("tell", "ask", "reply", "replyerr")]
        cases += [dict(kind="recv", a=a, r=r, e=e) for a in (0, 1) for r in (0, 1) for e in (0, 1, 255)]
        stats.cases["mbapp/parse+emit+recv"] = 10 + 4 + 12
        tr, lines = _replay(binp, "mbapp", cases, d, stats)

        def ctx(ev, op):
            if ev["kind"] == "set":
                return "mbapp/" + ev["f"]
            if ev["kind"] == "recv":
                if ev["a"] == 0 and ev["r"] == 1:
                    return "mbapp/reply-without-ask"
                if ev["r"] == 0 and ev["e"] != 0:
                    return "mbapp/code-without-reply"
                return "mbapp/recv"
            return "mbapp/" + ev["kind"]

        def describe(ev):
            if ev["kind"] == "set":
                return "Header %s, set %s from the sender's integer 0x%s -> header %s, getters before %s, after %s%s" % (
                    _hex(ev["h0"]), ev["f"], _hex(ev["v"]), _hex(ev["h1"]), {k: _hex(v) for k, v in ev["g0"].items()},
                    {k: _hex(v) for k, v in ev["g1"].items()}, (" panic: " + ev["what"]) if ev["panic"] else "")
            if ev["kind"] == "recv":
                return ("handleMessage given a well-formed single-part message with ask=%d reply=%d response code=%d -> %s "
                        "(the real sender was only seen to emit tell 0/0/0, request 1/0/0, reply 1/1/0 and 1/1/0xff)" % (ev["a"], ev["r"], ev["e"], ev["outcome"]))
            return json.dumps(_brief(ev))

        viol = _collect("mbapp", "MbappHeaderTrace", tr, lines, cases, stats, ctx, describe)
        for f in side:
            f.result()
    bits_hex = lambda bits: "%0*x" % (len(bits) // 4, int("".join(map(str, bits)), 2))
    stats.samples.append(dict(piece="mbapp", case=dict(cases[1], h=bits_hex(cases[1]["h"]), v=bits_hex(cases[1]["v"])), event=_brief(json.loads(lines[1]))))
    return viol


# ----------------------------------------------------------------------------
# quic frames

def run_frame(tier, binp, d, stats):
    T = TIERS[tier]
    res = _mc(stats, "frame/" + T["fr_cfg"], "QuicFrame", T["fr_cfg"], 4, 900, tier == "quick")
    raw = [c[1] for c in res.printed("CASE")]
    if len(raw) != res.distinct or not raw:
        raise core.Inconclusive("QuicFrame: %d cases printed for %d states" % (len(raw), res.distinct))
    stats.cases["frame/generated"] = len(raw)
    boundary = lambda c: c["cut"] == -1 and c["extra"] == 0
    cases = _sample([dict(c, kind="rw") for c in raw], T["fr_limit"], boundary if T["fr_limit"] and T["fr_limit"] < 5000 else (lambda c: False))
    stats.cases["frame/rw"] = len(cases)
    big = []
    for t, segs in ((255, [255]), (256, [100, 0, 156]), (65535, [65535]), (65536, [65536]), (70000, [3, 69997])):
        for mx in (t - 1, t):
            for dl in (t - 1, t):
                big.append(dict(kind="rw", segs=segs, maxLen=mx, dst=dl, cut=-1, fail="eof", mode="one" if t < 1000 else "whole", extra=1))
        big.append(dict(kind="rw", segs=segs, maxLen=t, dst=t, cut=4 + t - 1, fail="eof", mode="whole", extra=0))
        big.append(dict(kind="rw", segs=segs, maxLen=t, dst=t, cut=3, fail="err", mode="whole", extra=0))
    wr = [dict(kind="w", segs=s, wcut=j) for s in ([], [0], [3, 0, 3], [1]) for j in range(0, 5 + sum(s) + 1)]
    stats.cases["frame/big"] = len(big)
    stats.cases["frame/write-cut"] = len(wr)
    cases += big + wr
    tr, lines = _replay(binp, "frame", cases, d, stats)
    ctx = lambda ev, op: "frame/" + ("write" if ev["kind"] == "w" else "read")
    describe = lambda ev: json.dumps({k: v for k, v in ev.items() if k not in ("what", "id") or v})
    viol = _collect("frame", "QuicFrameTrace", tr, lines, cases, stats, ctx, describe, chunk=8000)
    stats.samples.append(dict(piece="frame", case=cases[len(cases) // 3], event=_brief(json.loads(lines[len(cases) // 3]))))
    return viol


# ----------------------------------------------------------------------------
# signature registry

def run_sig(tier, binp, d, stats):
    T = TIERS[tier]
    with ThreadPoolExecutor(max_workers=3) as ex:
        side = []
        if T["sig_kf"]:
            # the repaired defect: the unrepaired model (MarshalPrivateKey panics on an id without a DER form) violates the law
            side.append(ex.submit(_expect_violation, stats, "sig/marshal-private-panics-unrepaired", "MC_SigRegistry", "SigRegistry_ascoded.cfg", "NeverPanics"))
        race_bin = ex.submit(core.go_build, "wirereplay", True) if T["race"] else None
        res = _mc(stats, "sig/" + T["sig_cfg"], "MC_SigRegistry", T["sig_cfg"], 2)
        cases = [c[1] for c in res.printed("CASE")]
        if len(cases) != res.distinct or not cases:
            raise core.Inconclusive("SigRegistry: %d cases printed for %d states" % (len(cases), res.distinct))
        for k in ("sv", "algo", "pfp", "privrt"):
            stats.cases["sig/" + k] = sum(1 for c in cases if c["kind"] == k)
        cases.append(dict(kind="hammer", g=T["hammer"][0], n=T["hammer"][1]))
        stats.cases["sig/hammer-operations"] = T["hammer"][0] * T["hammer"][1]
        tr, lines = _replay(binp, "sig", cases, d, stats, race_bin=race_bin.result() if race_bin else None)

        def ctx(ev, op):
            if ev["kind"] == "sv":
                return "sig/verify-" + ev["mut"]
            if ev["kind"] == "algo":
                return "sig/%s-%s" % (ev["entry"], ev["algo"])
            return "sig/" + ev["kind"]

        viol = _collect("sig", "SigRegistryTrace", tr, lines, cases, stats, ctx, lambda ev: json.dumps(_brief(ev)))
        for f in side:
            f.result()
    stats.samples.append(dict(piece="sig", case=cases[0], event=_brief(json.loads(lines[0]))))
    return viol


# ----------------------------------------------------------------------------
# p2pke messages

def run_ke(tier, binp, d, stats):
    T = TIERS[tier]
    with ThreadPoolExecutor(max_workers=2) as ex:
        side = [ex.submit(_mc, stats, "ke/" + cfg, "MC_KeMessage", cfg, 2) for cfg in T["ke_mc"]]
        res = _mc(stats, "ke/KeMessage_gen.cfg", "MC_KeMessage", "KeMessage_gen.cfg", 2)
        cases = [c[1] for c in res.printed("CASE")]
        if len(cases) != res.distinct or not cases:
            raise core.Inconclusive("KeMessage: %d cases printed for %d states" % (len(cases), res.distinct))
        stats.cases["ke/message"] = len(cases)
        nsig = 0
        for ps in range(9):
            for pv in range(9):
                for ms, mv in ((3, 3), (3, 4), (1, 2), (0, 0), (1, 1)):
                    for ks, kv in ((0, 0), (0, 1)):
                        cases.append(dict(kind="sig", ps=ps, pv=pv, ms=ms, mv=mv, ks=ks, kv=kv))
                        nsig += 1
        ncl = 0
        for k in (0, 1):
            for pv in (0, 1):
                for mut in ("none", "sig", "cb", "algo", "trail"):
                    cases.append(dict(kind="claim", ks=k, pv=pv, mut=mut))
                    ncl += 1
        stats.cases["ke/sign-verify"] = nsig
        stats.cases["ke/claim"] = ncl
        tr, lines = _replay(binp, "ke", cases, d, stats)
        viol = _collect("ke", "KeMessageTrace", tr, lines, cases, stats, lambda ev, op: "ke/" + ev["kind"], lambda ev: json.dumps(_brief(ev)))
        for f in side:
            f.result()
    stats.samples.append(dict(piece="ke", case=cases[2], event=_brief(json.loads(lines[2]))))
    return viol


# ----------------------------------------------------------------------------

PIECES = {"mbapp": run_mbapp, "frame": run_frame, "sig": run_sig, "ke": run_ke}


PER_PIECE = 6     # violation kinds printed in full (and given a replay file) per piece; the others are listed by key


def _piece_of(key):
    return key.split(":")[2].split("/")[0] if key.count(":") >= 2 else ""


def _verdict(violations):
    """As core.verdict; the recorded findings of this component are matched by their key ("G07:...")."""
    kf = {k["key"]: k for k in core.known_findings() if k.get("key", "").startswith("G07:") and k.get("status", "open") == "open"}
    rc, seen, per, more = 0, set(), {}, []
    for v in violations:
        if v.key in seen:
            continue
        seen.add(v.key)
        if v.key in kf:
            under = kf[v.key].get("property")
            print("KNOWN-FINDING: property=%s%s %s [%s]" % (PID, "" if under == PID else " (recorded under %s)" % under, kf[v.key]["what"], v.key))
            continue
        rc = 1
        pc = _piece_of(v.key)
        per[pc] = per.get(pc, 0) + 1
        if per[pc] > PER_PIECE:
            more.append(v.key)
            continue
        print("VIOLATION property=%s replay=%s" % (PID, v.replay or "-"))
        print("  what: %s [%s]" % (v.what[:1500], v.key))
    if more:
        print("  (... %d further distinct violation kinds: %s)" % (len(more), " ".join(more)))
    return rc


def check(pid, tier, replay=None):
    t0 = time.time()
    pieces = list(PIECES)
    if replay:
        with open(replay) as f:
            pieces = [json.load(f)["payload"]["piece"]]
    stats = Stats()
    d = core.scratch("g07")
    binp = core.go_build("wirereplay")
    found = []
    with ThreadPoolExecutor(max_workers=4) as ex:
        futs = {p: ex.submit(PIECES[p], tier, binp, d, stats) for p in pieces}
        errs = []
        for p, f in futs.items():
            try:
                found += f.result()
            except core.Inconclusive as e:
                errs.append("%s: %s" % (p, e))
        if errs:
            raise core.Inconclusive("\n".join(errs))
    mine, seen = [], set()
    recorded = {k.get("key") for k in core.known_findings() if k.get("status", "open") == "open"}
    per = {}
    for key, what, payload in found:
        if key in seen:
            continue
        seen.add(key)
        if key not in recorded:
            per[_piece_of(key)] = per.get(_piece_of(key), 0) + 1
        skip = key in recorded or per[_piece_of(key)] > PER_PIECE
        mine.append(core.Violation(PID, key, what, None if skip else core.write_replay(PID, key, payload)))
    if stats.drift:
        print("DRIFT component=G07 steps=%d (model and code disagree on steps that falsify no law) e.g. %s"
              % (len(stats.drift), json.dumps(stats.drift[:2])[:1500]))
    events = sum(stats.events.values())
    coverage = dict(
        states=max(1, sum(v["states"] for v in stats.mc.values())),
        transitions=max(1, sum(v["transitions"] for v in stats.mc.values())),
        traces_validated_against_impl=events,
        samples=stats.samples[:4] or [dict(note="replay run")],
        evaluations=events,
        distinct_nontrivial=sum(stats.trace_states.values()),
        rule="evaluations = trace events validated by TLC, one per executed case (a header x field x value triple, a ParseMessage length, "
             "an emitted / injected flag combination, a frame case (segments, maxLen, len(dst), reader cut and failure, chunking), a "
             "sign/verify/mutation case, a registry entry point x algorithm id x key length, a counter x body length, a purpose/message/key "
             "pair); the cases are the distinct initial states of the generator modules (TLC deduplicates them), sampled by a seeded stride "
             "in the quick tier; distinct_nontrivial = distinct states of the trace specifications (log position)",
        model_checking=stats.mc, expected_model_violations=stats.expected_violations, cases=stats.cases,
        events=stats.events, drift_steps=len(stats.drift), pieces=pieces, exhaustive=False,
        explanation="TLC checks the as-coded TLA+ transcriptions (MbappHeader at 4 and 8 bits per word, QuicFrame up to 6-byte frames, "
                    "SigRegistry over an abstract perfect signature scheme, KeMessage over base-4 counters) exhaustively within the bounds of "
                    "the listed configs and generates the cases; wirereplay executes every case on the real functions; the trace "
                    "specifications evaluate the law operators on what they returned")
    core.write_evidence(PID, tier, "model_checking", coverage,
                        ["mbapp: the as-coded arithmetic model is checked against the bit layout at 4 and 8 bits per word only (word values of 32 "
                         "bits do not fit TLC's integers); at 32 bits the laws are evaluated over bits on class cases; the receive path is entered "
                         "through Swarm.VerifHandleMessage (verif build tag) over s/memswarm with single-part messages",
                         "frame: in-memory readers and writers (no QUIC stream); frames of 4 GiB and more (the uint32 conversion in writeFrame) are not executed",
                         "sig: Ed25519 only (the one registered scheme); bit positions are sampled by class (first / last / middle byte, the R|S boundary); "
                         "the race detector runs in the thorough tier only",
                         "ke: unexported helpers are reached through p/p2pke/verif_export_message.go (verif build tag); Deliver's dispatch is observed on "
                         "fresh sessions (handshake error versus ErrEarlyData)",
                         "TLC, the Json/IOUtils community modules and the Go toolchain are trusted"],
                        time.time() - t0, len([v for v in mine if v.key not in recorded]))
    return _verdict(mine)
