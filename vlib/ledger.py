"""C01: every swarm delivers exactly what was told, to whom it was told - decided with spec/SwarmLedger.tla.

 1. TLC model-checks the abstract Tell/Receive ledger (copy semantics, lossy/duplicating/reordering
    transport, the sender scribbling over its buffer right after Tell) and, as anti-vacuity, requires the
    Sharing = TRUE variant (a layer keeping a reference) to violate NoMix.  The same module enumerates the
    configuration space of the real-stack driver (stack kinds x senders x receivers x size classes).
 2. harness/cmd/ledger runs every case on clusters of REAL nodes of 19 stack kinds (in-memory, UDP,
    fragmenting, message-box, five multiplexers, multi-transport, address-mapped, whitelisted, P2PKE over
    memory and UDP, fragmenting/message-box over P2PKE, multiplexer over message-box, QUIC, SSH):
    concurrent senders (buffers overwritten as soon as Tell returns, single buffers and IOVecs), concurrent
    Receive loops with digests at callback entry and exit.
 3. TLC evaluates NoMix / BufferStable / SrcNamesSender / DstNamesReceiver on the recorded ledger.
"""
import json
import os
import time
from concurrent.futures import ThreadPoolExecutor

from . import core

PROPERTIES = ["C01"]

MANIFEST = {
    "C01": dict(level="exploration",
                technique="abstract TLA+ ledger model (SwarmLedger.tla) checked by TLC and used as case generator; concurrent drivers on clusters of real nodes of every stack kind; recorded Tell/Receive ledgers validated by TLC (SwarmLedgerTrace.tla)",
                text="The ledger law (a delivered payload is byte-identical to one told to that receiver by the attributed sender; the sender's buffer is free after Tell; the receiver's buffer is stable during the callback) is model-checked on the abstract transport, and then evaluated by TLC on ledgers recorded from 19 real stack kinds under concurrent senders and receivers, with payload sizes 0, 1, 7, 64, 200 bytes and 25/50/75/99.9/100 % of the stack's own MTU(). Payload CONTENT is seeded pseudo-random, stacks deeper than 3 layers are not built: hence 'exploration', not 'model_checking'.",
                note="The abstract model contributes the law and the case space; the decisive evidence is execution on real stacks. Source/destination attribution is compared as text (identity part for id@transport addresses whose transport part is an ephemeral port).",
                ref="5 (C01), 3.7"),
}

TIERS = {"quick": dict(cfg="SwarmLedger_quick.cfg", messages=24), "thorough": dict(cfg="SwarmLedger_thorough.cfg", messages=150)}


def sizes_from(classes):
    return [(-c if c <= 200 else c) for c in sorted(classes)]


def run_pipeline(tier, replay_cases=None, hammer=False, race=False):
    t0 = time.time()
    T = TIERS[tier]
    stats = dict(mc={}, events=0, per_kind={})
    d = core.scratch("ledger")
    binp = core.go_build("ledger", race=race)
    if replay_cases is None:
        with ThreadPoolExecutor(max_workers=2) as ex:
            f1 = ex.submit(core.tlc, "SwarmLedger", T["cfg"], workers=2, short=True, timeout=600)
            f2 = ex.submit(core.tlc, "SwarmLedger", "SwarmLedger_sharing.cfg", workers=1, short=True, timeout=600)
            res, bad = f1.result(), f2.result()
        core.tlc_ok_or_inconclusive(res, "MC SwarmLedger")
        if "NoMix" not in bad.violated and "BufferStable" not in bad.violated:
            raise core.Inconclusive("anti-vacuity: the reference-keeping variant of SwarmLedger does not violate NoMix")
        stats["mc"] = dict(states=res.distinct, transitions=res.generated, sharing_variant_violates=bad.violated)
        pr = res.printed("CASES")
        if not pr:
            raise core.Inconclusive("SwarmLedger printed no cases")
        cases = []
        for i, c in enumerate(sorted(pr[0][1], key=lambda c: (c["kind"], c["senders"], c["receivers"]))):
            cases.append(dict(id=i + 1, kind=c["kind"], senders=c["senders"], receivers=c["receivers"], messages=T["messages"],
                              sizes=sizes_from(pr[0][2])))
    else:
        cases = replay_cases
    p = os.path.join(d, "cases.ndjson")
    with open(p, "w") as f:
        for c in cases:
            f.write(json.dumps(c) + "\n")
    tr = os.path.join(d, "ledger.ndjson")
    env = dict(os.environ)
    racelog = os.path.join(d, "race")
    if race:
        env["GORACE"] = "halt_on_error=0 log_path=%s" % racelog
    cmd = [binp, "-in", p, "-out", tr, "-seed", str(core.seed()), "-par", "6"]
    if hammer:
        cmd.append("-hammer")
    out = core.run(cmd, timeout=2400, env=env, ok_codes=(0, 66))
    core.log("ledger: " + out.strip().splitlines()[-1])
    evs = [json.loads(l) for l in open(tr)]
    evs.sort(key=lambda e: (e["beh"], e["seq"]))
    with open(tr, "w") as f:
        for e in evs:
            f.write(json.dumps(e) + "\n")
    for e in evs:
        k = stats["per_kind"].setdefault(e["kind"], dict(told=0, delivered=0, tell_errors=0))
        if e["ev"] == "tell":
            k["told"] += 1
        elif e["ev"] == "recv" and not e["panic"]:
            k["delivered"] += 1
        elif e["ev"] == "tellret" and e["err"]:
            k["tell_errors"] += 1
        elif e["ev"] == "case" and e["err"]:
            raise core.Inconclusive("cannot build stack %s: %s" % (e["kind"], e["err"]))
    if not any(k["delivered"] for k in stats["per_kind"].values()):
        raise core.Inconclusive("no stack delivered anything")
    res = core.validate_trace("SwarmLedgerTrace", "SwarmLedgerTrace.cfg", tr, nshards=1)
    stats["events"] = res["events"]
    stats["trace_states"] = res["states"]
    violations = []
    for v in res["viol"]:
        ev = evs[v[1] - 1]
        for op in v[3]:
            pid = "C08" if op == "NoPanic" else "C01"
            key = "%s:%s:%s" % (pid, op, ev["kind"])
            what = "%s false on a real %s cluster: receiver saw %d bytes (digest %s, at exit %s) src=%s dst=%s%s" % (
                op, ev["kind"], ev["len"], ev["digest"], ev["digestout"], ev["src"], ev["dst"], (" panic: " + ev["panicv"]) if ev["panic"] else "")
            case = next((c for c in cases if c["id"] == ev["beh"]), None)
            violations.append((pid, key, what, dict(case=case, event=ev, operator=op)))
    stats["cases"] = cases
    stats["racelog"] = racelog
    stats["wall"] = time.time() - t0
    return stats, violations


def check(pid, tier, replay=None):
    t0 = time.time()
    rc = None
    if replay:
        with open(replay) as f:
            rc = [json.load(f)["payload"]["case"]]
    stats, violations = run_pipeline(tier, rc)
    mine, seen = [], set()
    for (p, key, what, payload) in violations:
        if p != pid or key in seen:
            continue
        seen.add(key)
        mine.append(core.Violation(pid, key, what, core.write_replay(pid, key, payload)))
    delivered = sum(k["delivered"] for k in stats["per_kind"].values())
    coverage = dict(evaluations=stats["events"], distinct_nontrivial=delivered,
                    rule="evaluations = ledger events validated by TLC; distinct_nontrivial = payloads actually delivered to a receiver callback (each with a distinct seeded content) and checked against the ledger",
                    samples=stats["cases"][:2], per_kind=stats["per_kind"], model_checking=stats["mc"], kinds=len(stats["per_kind"]), exhaustive=False)
    core.write_evidence(pid, tier, "exploration", coverage,
                        ["payload content is seeded pseudo-random, not enumerated", "stacks of depth <= 3",
                         "attribution compared as address text (identity part for id@transport addresses)"],
                        time.time() - t0, len(mine))
    return core.verdict(pid, mine)
