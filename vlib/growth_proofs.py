"""G03 (growth by proof): two bounded TLC results lifted to unbounded ones.

G03a  spec/KadCacheAbs.tla   the counting discipline of kademlia.Cache (count maintained incrementally,
      buckets, eviction, expiry) over an uninterpreted key set, arbitrary integer times and arbitrary
      constructor parameters.  Apalache proves IndInv (TypeOK /\ count = |present| /\ count <= cmax /\
      BucketsCover) INDUCTIVE and that it implies EvictPossible (evict always finds a victim), for 4 / 8
      keys and <= 9 buckets; spec/KadCacheAbsProof.tla: TLAPS proves Spec => [](IndInv) and hence
      [](CountExact /\ Bounded) for ANY finite key set, NB, BucketOf, cmax >= 0, cmin.
      spec/KadCacheRef.tla: TLC checks that KadCache.tla refines KadCacheAbs (AbsSpec as a PROPERTY).
G03b  spec/TellHubInd.tla    the TellHub rendezvous core of Hubs.tla for arbitrary op sets.
      spec/TellHubProof.tla: TLAPS proves Spec => []IndInv and IndInv => Safety (ExactlyOnce,
      OkOnlyAfterCallback, ...) for ANY sets D, R, C; Apalache re-proves the induction for N = 3, 4 ops
      (including the Cardinality formulation of ExactlyOnce); spec/HubsTellRef.tla: TLC checks that
      Hubs.tla (Hub = "tell") refines TellHubInd.

Verdict policy: this component proves statements about MODELS.  An obligation that fails says nothing
about the code: it is printed as a DRIFT line and the run is INCONCLUSIVE (exit 2), as is a timeout or
a tool failure.  Exit 1 is never produced.  Negative controls (a mutated module whose obligation must be
REFUTED) guard against a vacuous proof set-up; a control that is not refuted is INCONCLUSIVE as well.

quick:    the Apalache obligations of KadCacheAbs over 4 keys (2 runs).
thorough: everything (Apalache 4 and 8 keys, TellHubInd N = 3 and 4, controls, TLAPS, TLC refinements).
"""
import os
import re
import shutil
import subprocess
import threading
import time

from . import core

EXTRA = ["G03"]

APALACHE_HEAP = "-Xmx8g"
FILES = ["KadCacheAbs.tla", "TellHubInd.tla", "TellHubProof.tla", "KadCacheAbsProof.tla"]


def _copy_specs(d, names):
    for n in names:
        p = os.path.join(core.SPEC, n)
        if os.path.exists(p):
            shutil.copy(p, d)


def _run(cmd, cwd, timeout, env=None):
    t0 = time.time()
    try:
        p = subprocess.run(cmd, cwd=cwd, env=env, stdout=subprocess.PIPE, stderr=subprocess.STDOUT, text=True,
                           errors="replace", timeout=timeout)
        return p.returncode, p.stdout, time.time() - t0
    except subprocess.TimeoutExpired as e:
        out = e.stdout if isinstance(e.stdout, str) else (e.stdout or b"").decode(errors="replace")
        return None, out, time.time() - t0
    except OSError as e:
        return -1, "cannot run %s: %s" % (cmd[0], e), time.time() - t0


def apalache(name, module, cinit, init, inv, length, expect="proved", mutate=None, timeout=600):
    """One Apalache obligation. Returns a result dict with status in
    proved | refuted | timeout | error."""
    d = core.scratch("apa")
    _copy_specs(d, FILES)
    if mutate:
        path = os.path.join(d, module)
        with open(path) as f:
            text = f.read()
        old, new = mutate
        if text.count(old) != 1:
            return dict(name=name, tool="apalache", status="error", wall_s=0.0, cmd="(mutation)",
                        detail="mutation anchor not found exactly once: %r" % old, expect=expect)
        with open(path, "w") as f:
            f.write(text.replace(old, new))
    cmd = ["apalache-mc", "check", "--cinit=" + cinit, "--init=" + init, "--inv=" + inv, "--length=%d" % length,
           "--out-dir=" + os.path.join(d, "out"), module]
    env = dict(os.environ)
    env["JVM_ARGS"] = APALACHE_HEAP
    rc, out, wall = _run(cmd, d, timeout, env)
    if rc is None:
        status = "timeout"
    elif rc == 0 and "The outcome is: NoError" in out:
        status = "proved"
    elif rc == 12 and "The outcome is: Error" in out:
        status = "refuted"
    else:
        status = "error"
    m = re.search(r"Found (\d+) transitions", out)
    res = dict(name=name, tool="apalache", status=status, wall_s=round(wall, 1), expect=expect,
               cmd="apalache-mc check --cinit=%s --init=%s --inv=%s --length=%d %s" % (cinit, init, inv, length, module),
               transitions=int(m.group(1)) if m else None,
               detail="" if status in ("proved", "refuted") else out[-1500:])
    core.log("apalache %-34s %-8s %.1fs" % (name, status, wall))
    shutil.rmtree(d, ignore_errors=True)
    return res


def tlaps(name, module, timeout=1500, threads=8):
    d = core.scratch("tlaps")
    _copy_specs(d, FILES)
    cmd = ["tlapm", "--threads", str(threads), "--stretch", "3", module]
    rc, out, wall = _run(cmd, d, timeout)
    n_all = n_failed = 0
    m = re.search(r"All (\d+) obligations? proved", out)
    if m:
        n_all = int(m.group(1))
    m2 = re.search(r"(\d+)/(\d+) obligations? failed", out)
    if m2:
        n_failed, n_all = int(m2.group(1)), int(m2.group(2))
    if rc is None:
        status = "timeout"
    elif rc == 0 and m and n_all > 0:
        status = "proved"
    elif m2:
        status = "unproved"     # TLAPS could not prove some obligation (a time-out of a backend, not a counterexample)
    else:
        status = "error"
    failed_at = re.findall(r'line (\d+), characters? [\d-]+:\s*\n\[ERROR\]: Could not prove', out)
    res = dict(name=name, tool="tlapm", status=status, wall_s=round(wall, 1), expect="proved",
               cmd="tlapm --threads %d --stretch 3 %s" % (threads, module), tlaps_obligations=n_all,
               tlaps_failed=n_failed, failed_lines=failed_at[:10],
               detail="" if status == "proved" else out[-1500:])
    core.log("tlapm    %-34s %-8s %.1fs (%d obligations, %d failed)" % (name, status, wall, n_all, n_failed))
    shutil.rmtree(d, ignore_errors=True)
    return res


def tlc_refinement(name, module, cfg, timeout=900):
    try:
        r = core.tlc(module, cfg, workers=4, timeout=timeout, label=name)
    except core.Inconclusive as e:
        return dict(name=name, tool="tlc", status="timeout", wall_s=float(timeout), expect="proved",
                    cmd="tlc -config %s %s" % (cfg, module), detail=str(e)[-800:])
    if r.violated or " is violated" in r.out:
        status = "refuted"
    elif r.completed and not r.errors:
        status = "proved"
    else:
        status = "error"
    return dict(name=name, tool="tlc", status=status, wall_s=round(r.wall, 1), expect="proved",
                cmd="tlc -workers 4 -config %s %s" % (cfg, module), states=r.distinct, transitions=r.generated,
                detail="" if status == "proved" else r.out[-1500:])


# ----------------------------------------------------------------------------
# obligation tables

def kad_apalache(k):
    c = "ConstInit%d" % k
    return [
        ("KadCacheAbs[K=%d] Init => IndInv" % k,
         dict(module="KadCacheAbs.tla", cinit=c, init="Init", inv="IndInv", length=0)),
        ("KadCacheAbs[K=%d] IndInv => EvictPossible; IndInv /\\ Next => IndInv'" % k,
         dict(module="KadCacheAbs.tla", cinit=c, init="IndInit", inv="IndInvX", length=1)),
    ]


def tell_apalache(n):
    c = "ConstInit%d" % n
    return [
        ("TellHubInd[N=%d] Init => IndInv" % n,
         dict(module="TellHubInd.tla", cinit=c, init="Init", inv="IndInv", length=0)),
        ("TellHubInd[N=%d] IndInv /\\ Next => IndInv'" % n,
         dict(module="TellHubInd.tla", cinit=c, init="IndInit", inv="IndInv", length=1)),
        ("TellHubInd[N=%d] IndInv => Safety /\\ ExactlyOnceCard" % n,
         dict(module="TellHubInd.tla", cinit=c, init="IndInit", inv="SafetyCard", length=0)),
    ]


# mutated modules whose inductive step MUST be refuted (the set-up can tell)
CONTROLS = [
    ("control: KadCacheAbs with Expire not decrementing count (the C18 defect) is refuted",
     dict(module="KadCacheAbs.tla", cinit="ConstInit4", init="IndInit", inv="IndInv", length=1, expect="refuted",
          mutate=("    /\\ count' = count - Cardinality(S)\n", "    /\\ count' = count\n"))),
    ("control: TellHubInd with a rendezvous on an already committed deliver op is refuted",
     dict(module="TellHubInd.tla", cinit="ConstInit2", init="IndInit", inv="IndInv", length=1, expect="refuted",
          mutate=('ParkedD == {d \\in D : dpc[d] = "park"}', 'ParkedD == {d \\in D : dpc[d] \\in {"park", "wait"}}'))),
]

REFINEMENTS = [
    ("KadCache refines KadCacheAbs (focus, max=2)", "KadCacheRef", "KadCacheRef_focus2.cfg"),
    ("KadCache refines KadCacheAbs (focus, max=3)", "KadCacheRef", "KadCacheRef_focus3.cfg"),
    ("KadCache refines KadCacheAbs (boundary, max=8, min=1, prefilled)", "KadCacheRef", "KadCacheRef_boundary8.cfg"),
    ("KadCache refines KadCacheAbs (boundary, max=9, min=1, prefilled)", "KadCacheRef", "KadCacheRef_boundary9.cfg"),
    ("Hubs(tell) refines TellHubInd (2 delivers, 2 receives, 1 close)", "HubsTellRef", "HubsTellRef_tell.cfg"),
]

TLAPS_MODULES = [
    ("TellHubProof: Spec => []IndInv, IndInv => Safety, any D, R, C", "TellHubProof.tla"),
    ("KadCacheAbsProof: Spec => []IndInv, any finite Keys, any NB, BucketOf, cmax, cmin", "KadCacheAbsProof.tla"),
]


def check(pid, tier, replay=None):
    t0 = time.time()
    if replay:
        raise core.Inconclusive("G03 has no replay files: it proves statements about models")
    results = []
    lock = threading.Lock()

    def add(r):
        with lock:
            results.append(r)

    # lane 1: Apalache, strictly one JVM at a time
    apa = list(kad_apalache(4))
    if tier == "thorough":
        apa += kad_apalache(8) + tell_apalache(3) + tell_apalache(4) + CONTROLS

    def lane_apalache():
        for name, kw in apa:
            add(apalache(name, timeout=(300 if tier == "quick" else 900), **kw))

    def lane_tlaps():
        for name, module in TLAPS_MODULES:
            if os.path.exists(os.path.join(core.SPEC, module)):
                add(tlaps(name, module))

    def lane_tlc():
        for name, module, cfg in REFINEMENTS:
            add(tlc_refinement(name, module, cfg))

    lanes = [threading.Thread(target=lane_apalache)]
    if tier == "thorough":
        lanes += [threading.Thread(target=lane_tlc)]
    for th in lanes:
        th.start()
    for th in lanes:
        th.join()
    if tier == "thorough":
        lane_tlaps()     # alone: the backends' time limits are wall-clock, concurrent JVMs make obligations time out

    def weight(r):
        return max(1, r.get("tlaps_obligations", 0)) if r["tool"] == "tlapm" else 1

    obligations = sum(weight(r) for r in results)
    ok = [r for r in results if r["status"] == r["expect"]]
    discharged = sum(1 for r in ok if r["tool"] != "tlapm") + \
        sum(r.get("tlaps_obligations", 0) - r.get("tlaps_failed", 0) for r in results
            if r["tool"] == "tlapm" and r["status"] in ("proved", "unproved"))
    failed = [r for r in results if r["status"] != r["expect"] and r["status"] in ("proved", "refuted", "unproved")]
    broken = [r for r in results if r["status"] in ("timeout", "error")]
    samples = [{k: v for k, v in r.items() if k != "detail" or v} for r in sorted(results, key=lambda r: r["name"])]
    coverage = dict(
        obligations=obligations, discharged=discharged,
        checker_cmd="; ".join(sorted({r["cmd"] for r in results if r["tool"] != "tlc"}))[:4000],
        trusted_base=["Apalache 0.58.0 (SMT encoding, Z3) for the bounded-universe inductive checks",
                      "tlapm 1.6.0-pre with Zenon, Isabelle/TLA+, Z3 and the PTL backend (ls4) for the TLAPS proofs",
                      "TLC for the refinement checks KadCache => KadCacheAbs and Hubs(tell) => TellHubInd (finite configurations only)",
                      "the abstraction itself: KadCacheAbs/TellHubInd are models; their link to the Go code is the trace validation of C18/C13, not this component"],
        samples=samples,
        by_tool={t: sum(1 for r in results if r["tool"] == t) for t in ("apalache", "tlapm", "tlc")},
        refinement_states=sum(r.get("states", 0) for r in results if r["tool"] == "tlc"),
        explanation="Inductive invariants: Apalache checks Init => IndInv and IndInv /\\ Next => IndInv' over ALL states "
                    "satisfying IndInv (not only reachable ones) for every constant assignment admitted by ConstInitK "
                    "(K uninterpreted keys, NB <= 9 buckets, every BucketOf, every integer cmax/cmin satisfying the "
                    "constructor precondition, every integer time); TLAPS proofs hold for arbitrary parameters.")
    assumptions = ["a proof about the model transfers to the code only through the conformance checks of C18 (KadCache) "
                   "and C12/C13 (Hubs)",
                   "Apalache results are for the stated key/op universes (symmetric, uninterpreted); times, counters and "
                   "constructor parameters are unbounded integers",
                   "quick tier: only the KadCacheAbs obligations over 4 keys"]
    core.write_evidence(pid, tier, "proof", coverage, assumptions, time.time() - t0, 0)

    for r in failed:
        print("DRIFT property=%s obligation=%r tool=%s: expected %s, got %s%s (a failed proof obligation of the MODEL; "
              "it says nothing about the code)" % (pid, r["name"], r["tool"], r["expect"], r["status"],
                                                   (" at lines %s" % r["failed_lines"]) if r.get("failed_lines") else ""))
    for r in broken:
        print("DRIFT property=%s obligation=%r tool=%s: %s\n%s" % (pid, r["name"], r["tool"], r["status"], r.get("detail", "")[-600:]))
    if failed or broken:
        raise core.Inconclusive("%d of %d proof obligations not discharged (%d failed, %d timeout/tool error)"
                                % (obligations - discharged, obligations, len(failed), len(broken)))
    core.log("G03 %s: %d obligations discharged in %.0fs" % (tier, discharged, time.time() - t0))
    return 0
